"""Unit `types`: feel/src/types.rs (C16; termination of is_equivalent and is_conformant for C05)."""
import os, sys
sys.path.insert(0, os.path.dirname(os.path.abspath(__file__)))
import _common as C

CTX_INV = lambda S, O: [
    ('ctx_self', '*self is Context, self->Context_0 == *entries_self'),
    ('ctx_other', '*other is Context, other->Context_0 == *entries_other'),
]

UNIT = {
    'name': 'types',
    'uses': C.USES,
    'parts': C.NAME + C.FEELTYPE + C.VALUE + [
        {'kind': 'vrs', 'file': 'types/spec.vrs'},
        {'kind': 'vrs', 'file': 'types/lemmas.vrs'},
        # ---------------------------------------------------------------- is_equivalent
        {'kind': 'fn', 'src': 'feel/src/types.rs', 'path': 'impl FeelType::fn is_equivalent',
         'key': 'types::FeelType::is_equivalent',
         'props': ['C16'], 'auto_props': ['C16', 'C05'],
         'ret': 'r',
         'ensures': [('post_equiv', 'r == equiv(*self, *other)')],
         'decreases': '*self',
         'body_prefix': 'broadcast use vstd::std_specs::btree::group_btree_axioms;\nproof { axiom_name_key(); }',
         'rewrites': [('R2', 0), ('R1', 1)],
         'loops': 2,
         'loop_specs': {
             0: {
                 'iter_name': 'it',
                 'invariant': [
                     ('ctx_self', '*self is Context, self->Context_0 == *entries_self'),
                     ('ctx_other', '*other is Context, other->Context_0 == *entries_other'),
                     ('same_len', 'entries_self@.len() == entries_other@.len()'),
                     ('seq_in_map', 'forall |j: int| 0 <= j < it.seq().len() ==> entries_self@.contains_key(*(#[trigger] it.seq()[j]).0) && entries_self@[*it.seq()[j].0] == *it.seq()[j].1'),
                     ('map_in_seq', 'forall |kk: Name| entries_self@.contains_key(kk) ==> exists |j: int| 0 <= j < it.seq().len() && *(#[trigger] it.seq()[j]).0 == kk'),
                     ('done_equiv', 'forall |j: int| 0 <= j < it.index@ ==> entries_other@.contains_key(*(#[trigger] it.seq()[j]).0) && equiv(*it.seq()[j].1, entries_other@[*it.seq()[j].0])'),
                 ],
                 'body_prefix': 'proof {\n  axiom_name_key();\n  assert(entries_self@.contains_key(*name) && entries_self@[*name] == *type_self);\n  assert(decreases_to!(*self => self->Context_0));\n  assert(decreases_to!(*entries_self => entries_self@[*name]));\n}',
             },
             1: {
                 'invariant': [
                     ('fn_self', '*self is Function, self->Function_0 == *params_self, self->Function_1 == *result_self'),
                     ('fn_other', '*other is Function, other->Function_0 == *params_other, other->Function_1 == *result_other'),
                     ('same_len', 'params_self.len() == params_other.len()'),
                     ('done_equiv', 'forall |j: int| 0 <= j < i ==> equiv(#[trigger] params_self@[j], params_other@[j])'),
                 ],
                 'body_prefix': 'proof {\n  vstd::std_specs::vec::axiom_vec_index_decreases(*params_self, i as int);\n  assert(decreases_to!(*self => self->Function_0));\n  assert(decreases_to!(*self => self->Function_1));\n}',
             },
         },
         'splices': [
             {'id': 'ctx_dom_eq', 'op': 'before', 'anchor': 'return true;', 'nth': 0,
              'text': 'proof {\n  assert(entries_self@.dom().subset_of(entries_other@.dom()));\n  vstd::set_lib::lemma_subset_equality(entries_self@.dom(), entries_other@.dom());\n}'},
         ],
         },
        {'kind': 'vrs', 'file': 'types/height.vrs'},
        # ---------------------------------------------------------------- is_conformant
        {'kind': 'fn', 'src': 'feel/src/types.rs', 'path': 'impl FeelType::fn is_conformant',
         'key': 'types::FeelType::is_conformant',
         'props': ['C16'], 'auto_props': ['C16', 'C05'],
         'ret': 'r',
         'decreases': 'height(*self) + height(*other)',
         'ensures': [('post_conf', 'r == conf(*self, *other)')],
         'splices': [
             {'id': 'both_entries_are_lower', 'op': 'before', 'anchor': 'if !type_self.is_conformant(type_other) {', 'props': ['C05', 'C16'],
              'text': 'proof { lemma_h_ctx(*entries_self, *name); lemma_h_ctx(*entries_other, *name); }'},
             {'id': 'both_parameters_are_lower', 'op': 'before', 'anchor': 'if !parameter_other.is_conformant(&parameters_self[i]) {', 'props': ['C05', 'C16'],
              'text': 'proof { lemma_h_fn(*parameters_self, *result_self, i as int); lemma_h_fn(*parameters_other, *result_other, i as int); }'},
         ],
         'body_prefix': 'broadcast use vstd::std_specs::btree::group_btree_axioms;\nproof { axiom_name_key(); }',
         'rewrites': [('R2', 0), ('R1', 1)],
         'loops': 2,
         'loop_specs': {
             0: {
                 'iter_name': 'it',
                 'invariant': [
                     ('ctx_self', '*self is Context, self->Context_0 == *entries_self'),
                     ('ctx_other', '*other is Context, other->Context_0 == *entries_other'),
                     ('not_equiv', '!equiv(*self, *other)'),
                     ('seq_in_map', 'forall |j: int| 0 <= j < it.seq().len() ==> entries_other@.contains_key(*(#[trigger] it.seq()[j]).0) && entries_other@[*it.seq()[j].0] == *it.seq()[j].1'),
                     ('map_in_seq', 'forall |kk: Name| entries_other@.contains_key(kk) ==> exists |j: int| 0 <= j < it.seq().len() && *(#[trigger] it.seq()[j]).0 == kk'),
                     ('done_conf', 'forall |j: int| 0 <= j < it.index@ ==> entries_self@.contains_key(*(#[trigger] it.seq()[j]).0) && conf(entries_self@[*it.seq()[j].0], *it.seq()[j].1)'),
                 ],
                 'body_prefix': 'proof {\n  axiom_name_key();\n  assert(entries_other@.contains_key(*name) && entries_other@[*name] == *type_other);\n}',
             },
             1: {
                 'invariant': [
                     ('fn_self', '*self is Function, self->Function_0 == *parameters_self, self->Function_1 == *result_self'),
                     ('fn_other', '*other is Function, other->Function_0 == *parameters_other, other->Function_1 == *result_other'),
                     ('same_len', 'parameters_self.len() == parameters_other.len()'),
                     ('not_equiv', '!equiv(*self, *other)'),
                     ('done_conf', 'forall |j: int| 0 <= j < i ==> conf2(#[trigger] parameters_self@[j], parameters_other@[j], true)'),
                 ],
                 'body_prefix': 'proof { lemma_conf_flip(parameters_self@[i as int], parameters_other@[i as int]); }',
             },
         },
         },
        # ---------------------------------------------------------------- type_of (assumed for now)
        {'kind': 'vrs', 'file': 'types/spec_coerce.vrs'},
        {'kind': 'item', 'src': 'feel/src/context.rs', 'path': 'impl Deref for FeelContext', 'key': 'types::FeelContext::deref',
         'rewrites': [('RX', 'contract', r'fn deref\(&self\) -> &Self::Target \{', 'fn deref(&self) -> (r: &Self::Target) ensures *r == self.0 {', 1)]},
        {'kind': 'fn', 'src': 'feel/src/values.rs', 'path': 'impl Value::fn type_of',
         'key': 'types::Value::type_of',
         'props': ['C16'], 'auto_props': ['C16', 'C05'],
         'ret': 'r',
         'decreases': '*self',
         'ensures': [('post_type_rel', 'type_rel(*self, r)')],
         'body_prefix': '''broadcast use vstd::std_specs::btree::group_btree_axioms;
proof {
  axiom_name_key();
  let ghost gself = *self;
  match gself {
    Value::ContextType(ft) => { lemma_equiv_refl(ft); }
    Value::ContextTypeEntry(_, ft) => { lemma_equiv_refl(ft); }
    Value::FeelType(ft) => { lemma_equiv_refl(ft); }
    Value::FormalParameter(_, ft) => { lemma_equiv_refl(ft); }
    Value::FunctionDefinition(ps, _, res) => {
      lemma_equiv_refl(res);
      assert forall |i: int| 0 <= i < ps@.len() implies equiv(#[trigger] ps@[i].1, ps@[i].1) by { lemma_equiv_refl(ps@[i].1); }
    }
    _ => {}
  }
}''',
         'rewrites': [('RX', 'R2', r'for \(name, value\) in context\.deref\(\) \{', 'for (name, value) in context.deref().iter() {', 1),
                      ('RX', 'R10', r'\|\(_, feel_type\)\| feel_type\.clone\(\)', '|p: &(Name, FeelType)| -> (q: FeelType) ensures q == p.1 { p.1.clone() }', 1),
                      ('RX', 'R2v', r'for item in values\.as_vec\(\) \{', 'for item in values.as_vec().iter() {', 1)],
         'loops': 2,
         'loop_specs': {
             0: {
                 'iter_name': 'it',
                 'invariant': [
                     ('ctx_self', '*self is Context, self->Context_0 == *context'),
                     ('seq_in_map', 'forall |j: int| 0 <= j < it.seq().len() ==> context.0@.contains_key(*(#[trigger] it.seq()[j]).0) && context.0@[*it.seq()[j].0] == *it.seq()[j].1'),
                     ('map_in_seq', 'forall |kk: Name| context.0@.contains_key(kk) ==> exists |j: int| 0 <= j < it.seq().len() && *(#[trigger] it.seq()[j]).0 == kk'),
                     ('done_keys', 'forall |j: int| 0 <= j < it.index@ ==> entries@.contains_key(*(#[trigger] it.seq()[j]).0)'),
                     ('entries_ok', 'forall |k: Name| #[trigger] entries@.contains_key(k) ==> context.0@.contains_key(k) && type_rel(context.0@[k], entries@[k])'),
                 ],
                 'body_prefix': 'proof {\n  axiom_name_key();\n  assert(context.0@.contains_key(*name) && context.0@[*name] == *value);\n  assert(decreases_to!(*self => self->Context_0)); assert(decreases_to!(*context => context.0)); assert(decreases_to!(context.0 => context.0@[*name])); assert(decreases_to!(*self => *value));\n}',
             },
             1: {
                 'iter_name': 'it',
                 'invariant': [
                     ('list_self', '*self is List, self->List_0 == *values, values.0@.len() > 0'),
                     ('seq_is_vec', 'it.seq() =~= values.0@.map_values(|v: Value| &v)'),
                     ('first', 'type_rel(values.0@[0], item_type)'),
                     ('done_same', 'forall |j: int| 0 <= j < it.index@ ==> type_rel(#[trigger] values.0@[j], item_type)'),
                 ],
                 'body_prefix': 'proof {\n  lemma_type_rel_functional_all(*item, item_type);\n  lemma_type_rel_closed_all(*item, item_type);\n  assert(*item == values.0@[it.index@ as int]);\n  assert(wit(item_type));\n}',
             },
         },
         'splices': [
             {'id': 'range_hint', 'op': 'before', 'anchor': 'if range_start_type == range_end_type {',
              'text': 'proof {\n  assert(wit(range_start_type));\n  lemma_equiv_refl(range_start_type);\n  if equiv(range_start_type, range_end_type) { lemma_equiv_sym(range_start_type, range_end_type); lemma_type_rel_closed(**range_end, range_end_type, range_start_type); }\n  if type_rel(**range_end, range_start_type) { lemma_type_rel_functional(**range_end, range_start_type, range_end_type); }\n}'},
             {'id': 'first_item_is_smaller', 'op': 'before', 'anchor': 'let item_type = values.as_vec()[0].type_of();',
              'text': 'proof { vstd::std_specs::vec::axiom_vec_index_decreases(values.0, 0); assert(decreases_to!(*self => self->List_0)); assert(decreases_to!(*values => values.0)); assert(decreases_to!(*self => values.0@[0])); }'},
             {'id': 'list_all_hint', 'op': 'before', 'anchor': 'FeelType::List(Box::new(item_type))',
              'text': 'proof { assert(wit(item_type)); lemma_equiv_refl(item_type); }'},
         ],
         },
        {'kind': 'fn', 'src': 'feel/src/values.rs', 'path': 'impl Values::fn new', 'key': 'types::Values::new',
         'props': ['C16'], 'auto_props': ['C16', 'C05'], 'ret': 'r', 'ensures': [('post', 'r.0 == values')], 'loops': 0},
        {'kind': 'fn', 'src': 'feel/src/values.rs', 'path': 'impl Values::fn len', 'key': 'types::Values::len',
         'props': ['C16'], 'auto_props': ['C16', 'C05'], 'ret': 'r', 'ensures': [('post', 'r == self.0@.len()')], 'loops': 0},
        {'kind': 'fn', 'src': 'feel/src/values.rs', 'path': 'impl Values::fn as_vec', 'key': 'types::Values::as_vec',
         'props': ['C16'], 'auto_props': ['C16', 'C05'], 'ret': 'r', 'ensures': [('post', '*r == self.0')], 'loops': 0},
        {'kind': 'item', 'src': 'feel/src/values.rs', 'path': 'macro_rules! value_null'},
        {'kind': 'vrs', 'file': 'types/lemmas_coerce.vrs'},
        # ---------------------------------------------------------------- coerced
        {'kind': 'fn', 'src': 'feel/src/types.rs', 'path': 'impl FeelType::fn coerced',
         'key': 'types::FeelType::coerced',
         'props': ['C16', 'C11'], 'auto_props': ['C16', 'C05'],
         'ret': 'r',
         'ensures': [('post_coerce', 'forall |tv: FeelType| type_rel(*actual_value, tv) ==> coerce_post(*self, *actual_value, tv, r)')],
         'body_prefix': 'proof { lemma_coerce_tests_indep(*actual_value, *self); }',
         'loops': 0,
         },
    ],
}

NOT_DECIDED = {
    'C11': ['output side: FeelType::coerced itself is decided here (wrap into / unwrap from a singleton list, null otherwise); where it is applied to decision / BKM / decision service results is not'],
    'C16': [
        'where coercion is applied during function invocation / decision output (closure wiring in feel-evaluator builders and model-evaluator)',
        'get_value_checked / get_conformant_value (not part of the property)',
    ],
    'C05': [
        'is_equivalent, is_conformant (decreases: the sum of the heights of both arguments - its parameter loop swaps them) and type_of are proved terminating; no arithmetic in this unit',
    ],
}
ASSUMPTIONS = [
    'A-name: Name\'s derived Ord is a total order (axiom_name_key)',
    'A-derive: derived Clone impls of Name/FeelType/Value return an equal value; derived PartialEq of FeelType decides structural equality (= spec equiv)',
    'A-std: vstd specifications of Vec, BTreeMap (get/insert/iter/keys/len), slice iterators, Iterator::map/collect',
    'rewrite rules R1 (enumerate), R2 (map iteration via .iter()), R7 (field visibility), R10 (tuple-pattern closure parameter named; closure given its own ensures) are semantics-preserving',
    'type_rel (the type of a value) is transcribed from the implementation\'s intent, not from the standard',
]

BOUNDED = {'C16': [{'name': 'type-relations-differential', 'script': 'typediff.py', 'args': [],
                    'functions': ['FeelType::is_equivalent', 'FeelType::is_conformant'],
                    'bound': 'every ordered pair of 79 types up to nesting depth 2 (6 simple types; lists, ranges, functions of arity 0..2 and contexts with 0..2 entries over 4 simple types; lists, functions and contexts over 8 of '
                             'those): 6 241 pairs against equivalence and conformance of DMN 1.3 section 10.3.2.9 written out in Python (bounded duplicate of the Verus contracts; decides the relations when a rewritten body leaves the extractor\'s reach)'}]}
BOUNDED['C16'] = BOUNDED['C16'] + [{'name': 'coercion-differential', 'script': 'coercediff.py', 'args': [], 'functions': ['FeelType::coerced', 'Value::type_of', 'eval_function_positional (argument coercion)'],
    'bound': '19 values (simple values, null, lists - empty, homogeneous, mixed, nested, singleton -, contexts with one / two entries, lists of contexts) x 15 parameter types (simple types, Any, lists, contexts with fewer / other entries, '
             'a list of contexts, a range) through `(function(x: T) x)(V)`: the value itself when its type conforms, the item of a singleton list / a singleton list when that conforms, null otherwise; coercing twice changes nothing; '
             'answers compared by FEEL equality (about 640 evaluations; bounded duplicate of types::FeelType::coerced::post_coerce)'}]
# the result half of "where coercion is applied: function parameters and results": typed results only exist for functions the model evaluator builds
# (knowledge models, decision services with a typed output variable) - the differential of unit itemdef evaluates them, also with no parameters
from units import itemdef as _itemdef  # noqa: E402
BOUNDED['C16'] = BOUNDED['C16'] + [dict(_itemdef.BOUNDED['C11'][0], name='typed-results-differential')]
