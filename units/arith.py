"""Unit `arith`: the arithmetic closures of feel-evaluator/src/builders.rs (C01): + - * / ** and unary minus apply the operation of their
name to their operands in order for the operand kinds they support, hand a null operand through where the code does, and answer null
for every other combination of kinds."""
import os, sys
sys.path.insert(0, os.path.dirname(os.path.abspath(__file__)))
import _common as C
import compare as CMP
B = 'feel-evaluator/src/builders.rs'
P = ['C01']
A = ['C01', 'C05']

def clo(fn, name, **kw):
    d = {'kind': 'closure', 'src': B, 'path': 'fn ' + fn, 'name': name, 'key': 'arith::' + fn, 'props': P, 'auto_props': A, 'loops': 0, 'rewrites': [('R3',)], 'ret': 'r'}
    d.update(kw)
    return d

NUM2 = 'lhv is Number && rhv is Number'
UNIT = {
    'name': 'arith',
    'file_attrs': ['#![feature(allocator_api)]'],
    'uses': C.USES + ['use std::cmp::Ordering;'],
    'parts': C.NAME + C.FEELTYPE + [{'kind': 'text', 'text': 'pub uninterp spec fn equiv(a: FeelType, b: FeelType) -> bool;', 'note': 'unused-here'}] + CMP.VALUE_PARTS + [
        {'kind': 'vrs', 'file': 'common/value_traits.vrs'},
        {'kind': 'vrs', 'file': 'arith/prelude.vrs'},
        clo('build_add', 'op_add',             ensures=[('numbers_are_added', NUM2 + ' ==> r == Value::Number(n_add(lhv->Number_0, rhv->Number_0))'),
                     ('strings_are_concatenated', '(lhv is String && rhv is String) ==> r is String && r->String_0@ == lhv->String_0@ + rhv->String_0@'),
                     ('durations_are_added', '(lhv is DaysAndTimeDuration && rhv is DaysAndTimeDuration) ==> r == Value::DaysAndTimeDuration(d_add(lhv->DaysAndTimeDuration_0, rhv->DaysAndTimeDuration_0))'),
                     ('anything_else_is_null', '!(' + NUM2 + ') && !(lhv is String && rhv is String) && !(lhv is DaysAndTimeDuration && rhv is DaysAndTimeDuration) ==> r is Null')]),
        clo('build_sub', 'op_sub', rewrites=[('R3',), ('RX', 'R7', r'lhv as Value, rhv as Value', 'lhv, rhv', None),
                                             ('RX', 'R11', r'FeelDaysAndTimeDuration::default\(\)\.nano\(a\)\.build\(\)', 'duration_of_nanos(a)', 1)],
            ensures=[('numbers_are_subtracted_in_order', NUM2 + ' ==> r == Value::Number(n_sub(lhv->Number_0, rhv->Number_0))'),
                     ('instants_are_subtracted_in_order', '(lhv is DateTime && rhv is DateTime) ==> (match instants_apart(lhv->DateTime_0, rhv->DateTime_0) { Some(a) => r == Value::DaysAndTimeDuration(d_of_nanos(a)), None => r is Null })'),
                     ('anything_else_is_null', '!(' + NUM2 + ') && !(lhv is DateTime && rhv is DateTime) ==> r is Null')]),
        clo('build_mul', 'op_mul',             ensures=[('numbers_are_multiplied', NUM2 + ' ==> r == Value::Number(n_mul(lhv->Number_0, rhv->Number_0))'),
                     ('anything_else_is_null', '!(' + NUM2 + ') ==> r is Null')]),
        clo('build_div', 'op_div',             ensures=[('numbers_are_divided_in_order', '(' + NUM2 + ' && !n_is_zero(rhv->Number_0)) ==> r == Value::Number(n_div(lhv->Number_0, rhv->Number_0))'),
                     ('division_by_zero_is_null', '(' + NUM2 + ' && n_is_zero(rhv->Number_0)) ==> r is Null'),
                     ('anything_else_is_null', '!(' + NUM2 + ') ==> r is Null')]),
        clo('build_exp', 'op_exp',
            ensures=[('power_in_order_or_null', NUM2 + ' ==> (match n_pow(lhv->Number_0, rhv->Number_0) { Some(p) => r == Value::Number(p), None => r is Null })'),
                     ('anything_else_is_null', '!(' + NUM2 + ') ==> r is Null')]),
        clo('build_neg', 'op_neg',
            ensures=[('a_number_is_negated', 'lhv is Number ==> r == Value::Number(n_neg(lhv->Number_0))'),
                     ('a_duration_is_negated', 'lhv is DaysAndTimeDuration ==> r == Value::DaysAndTimeDuration(d_neg(lhv->DaysAndTimeDuration_0))'),
                     ('anything_else_is_null', '!(lhv is Number) && !(lhv is DaysAndTimeDuration) ==> r is Null')]),
    ],
}
ASSUMPTIONS = ['A-dec: FeelNumber + - * / pow, unary minus, abs and the comparison with zero are the decimal128 operations of their name (uninterpreted n_add ...; decided in unit number and by the bounded decimal differential)',
               'A-chrono: subtract(date-time, date-time) and the duration builder are uninterpreted (unit timeline decides subtract)',
               'R4: the closure of each build_* function is lifted, its leading operand evaluations become parameters; R3: null messages dropped']
NOT_DECIDED = {'C01': ['which FEEL operand kinds an operator SHOULD support beyond these (date / time / duration arithmetic with durations and numbers is answered null by this implementation): the contracts say what the supported kinds compute and that the rest is null']}
