#!/usr/bin/env python3
"""Registered check entry point.

  python3 check.py <PROPERTY-ID> [--tier quick|thorough]
  python3 check.py --replay <replay-file>

exit 0: every obligation serving the property was discharged by Verus on /repo's working tree
exit 1: `VIOLATION property=<id> replay=<path>` - an obligation that is tagged with the property failed
exit 2: UNDECIDED (anchor lost, front-end error, rlimit, vacuous contract) - never a violation
"""
import concurrent.futures as cf
import glob
import importlib.util
import json
import os
import re
import sys
import time

HERE = os.path.dirname(os.path.abspath(__file__))
sys.path.insert(0, HERE)
from vf import build as B  # noqa: E402
from vf import run as R    # noqa: E402
from vf import extras      # noqa: E402

EVID = os.path.join(HERE, 'evidence')
REPLAYS = os.path.join(HERE, 'replays')
KNOWN = os.path.join(HERE, 'known_findings.json')


def load_units():
    units = {}
    for p in sorted(glob.glob(os.path.join(HERE, 'units', '*.py'))):
        name = os.path.basename(p)[:-3]
        if name.startswith('_'):
            continue
        spec = importlib.util.spec_from_file_location('unit_' + name, p)
        m = importlib.util.module_from_spec(spec)
        try:
            spec.loader.exec_module(m)
        except Exception as e:   # a unit that cannot even be set up (it reads /repo while loading) is undecided, never an alarm
            LOAD_ERRORS[name] = '%s: %s' % (type(e).__name__, e)
            continue
        units[name] = m
    return units


LOAD_ERRORS = {}


def unit_props(udef):
    props = set()
    for part in udef['parts']:
        if part['kind'] == 'item':
            props.update(part.get('auto_props', []))
        if part['kind'] not in ('fn', 'closure'):
            continue
        props.update(part.get('props', []))
        props.update(part.get('auto_props', []))
        for c in part.get('requires', []) + part.get('ensures', []):
            if len(c) > 2:
                props.update(c[2])
        for ls in part.get('loop_specs', {}).values():
            props.update(ls.get('props', []))
        for sp in part.get('splices', []):
            props.update(sp.get('props', []))
    props.update(udef.get('lemma_props', []))
    return props


def load_known():
    if not os.path.exists(KNOWN):
        return {'findings': [], 'fixed': []}
    with open(KNOWN) as f:
        return json.load(f)


def match_known(known, prop, fail):
    for k in known.get('findings', []):
        if k.get('property') != prop:
            continue
        if fail.get('obligation') not in ([k.get('obligation')] + list(k.get('obligations', []))):
            continue
        if 'exit' in k and k['exit'] != fail.get('exit'):
            continue
        return k
    return None


def scan_trusted(built):
    """Every assumption construct in the generated file, with where it comes from."""
    pats = ['external_body', 'assume_specification', 'axiom fn', 'assume(', 'admit(', 'exec_allows_no_decreases_clause',
            'external_fn_specification', 'external_type_specification', 'verifier::external', 'uninterp spec fn', 'no_decreases']
    out = []
    bad = []
    lines = built.lines
    for i, l in enumerate(lines):
        s = l.text
        code = s.split('//')[0]
        for p in pats:
            if p in code:
                ctx = code.strip()
                # for attribute lines, append the next non-attribute line to say what it is attached to
                if ctx.startswith('#['):
                    j = i + 1
                    while j < len(lines) and (lines[j].text.strip().startswith('#[') or not lines[j].text.strip()):
                        j += 1
                    if j < len(lines):
                        ctx += ' ' + lines[j].text.strip()
                out.append('%s: %s  [%s]' % (p, ctx[:200], R.origin_to_str(l.origin)))
                if p in ('assume(', 'admit(') and l.origin[0] in ('src', 'rw'):
                    bad.append('assume/admit inside extracted body: %s' % ctx)
                break
    return out, bad


def run_property(prop, tier, seed):
    t0 = time.time()
    units = load_units()
    serving = [(n, m) for (n, m) in units.items() if prop in unit_props(m.UNIT)]
    if not serving:
        print('UNDECIDED no unit serves property %s' % prop)
        return 2
    runs = {}
    errors = []
    jobs = []
    with cf.ThreadPoolExecutor(max_workers=8) as ex:
        for (n, m) in serving:
            for variant in ('main', 'cover'):
                jobs.append((n, variant, ex.submit(safe_run, m.UNIT, variant, None, None)))
            if tier == 'thorough':
                for k in range(2):
                    jobs.append((n, 'seed%d' % k, ex.submit(safe_run, m.UNIT, 'main', None, ['--smt-option', 'smt.random_seed=%d' % (seed * 7 + k + 1)], 'seed%d' % k)))
        for (n, variant, fut) in jobs:
            res = fut.result()
            if isinstance(res, str):
                errors.append('%s[%s]: %s' % (n, variant, res))
            else:
                runs[(n, variant)] = res
    undecided = list(errors)
    for (n_, msg_) in sorted(LOAD_ERRORS.items()):
        undecided.append('unit %s could not be loaded (%s): every property it may serve is undecided' % (n_, msg_[:300]))
    violations = []
    known_hits = []
    notes = []
    known = load_known()
    total_verified = 0
    total_errors = 0
    fn_records = []
    clause_count = 0
    trusted = []
    rewrites = []
    samples = []
    smt_ms = 0
    per_unit = {}
    for (n, m) in serving:
        r = runs.get((n, 'main'))
        c = runs.get((n, 'cover'))
        if r is None or c is None:
            continue
        for u in r.undecided:
            undecided.append('%s: %s' % (n, u))
        tb, bad = scan_trusted(r.built)
        trusted += ['%s: %s' % (n, t) for t in tb]
        for bmsg in bad:
            undecided.append('%s: %s' % (n, bmsg))
        # vacuity
        for u in c.undecided:
            undecided.append('%s[cover]: %s' % (n, u))
        missing = sorted(set(c.built.cover_points) - c.cover_failed)
        # a cover point can only be judged if the cover run had no front-end problem
        if not c.undecided:
            for k in missing:
                undecided.append('%s: VACUOUS contract - cover point `%s` is unreachable (contradictory requires/invariant?)' % (n, c.built.cover_points[k]))
        if len(c.built.cover_points) == 0:
            undecided.append('%s: no cover points (no contracted function?)' % n)
        if r.results:
            total_verified += r.results.get('verified', 0)
            total_errors += r.results.get('errors', 0)
        try:
            smt_ms += r.times['smt']['smt-run']
        except Exception:
            pass
        per_unit[n] = {'file': os.path.relpath(r.path, HERE), 'verus_results': r.results, 'wall_s': round(r.wall_s, 2),
                       'smt_run_ms': (r.times or {}).get('smt', {}).get('smt-run'),
                       'cover_points': len(c.built.cover_points), 'cover_points_reachable': len(c.cover_failed),
                       'cmd': r.cmd}
        mine = {k: v for (k, v) in r.built.clauses.items() if prop in v['props']}
        clause_count += len(mine)
        for (cid, cl) in list(mine.items())[:6]:
            samples.append({'obligation': cid, 'kind': cl['kind'], 'text': cl['text'][:300]})
        for f in r.built.functions:
            if f['kind'] == 'fn':
                fn_records.append({'function': f['key'], 'source': '%s:%d-%d' % (f['src'], f['lines'][0], f['lines'][1]), 'sha256': f['sha256'][:16],
                                   'serves': sorted(set(f.get('props', []) + f.get('auto_props', [])))})
        rewrites += [{'unit': n, **e} for e in r.built.rewrites.entries]
        for f in r.failed:
            if prop in f.get('props', []):
                k = match_known(known, prop, f)
                if k:
                    known_hits.append((k, f))
                else:
                    violations.append((n, f))
            else:
                notes.append('NOTE also-failing %s (properties %s)' % (f['obligation'], ','.join(f.get('props', [])) or '-'))
        # seeds (thorough): any failure in a seed run that the main run did not show is instability -> undecided
        if tier == 'thorough':
            for k in range(2):
                sr = runs.get((n, 'seed%d' % k))
                if sr is None:
                    continue
                main_obl = {f['obligation'] for f in r.failed}
                for f in sr.failed:
                    if f['obligation'] not in main_obl:
                        undecided.append('%s: unstable proof - %s fails only under random seed variant %d' % (n, f['obligation'], k))
                for u in sr.undecided:
                    undecided.append('%s[seed%d]: %s' % (n, k, u))
    extra_info = {}
    if tier == 'thorough' and not undecided:
        # second back end / sensitivity / assumption audit, per unit module hooks
        for (n, m) in serving:
            if hasattr(m, 'thorough'):
                try:
                    info = m.thorough(prop, seed)
                except Exception as e:  # tooling failure is never a violation
                    info = {'undecided': ['thorough hook of %s crashed: %r' % (n, e)]}
                for u in info.get('undecided', []):
                    undecided.append('%s[thorough]: %s' % (n, u))
                for v in info.get('violations', []):
                    violations.append((n, v))
                extra_info[n] = {k: v for (k, v) in info.items() if k not in ('undecided', 'violations')}
    # ---- known findings that are identified by a concrete input: replay it on the real code
    for k in known.get('findings', []):
        if k.get('property') != prop or 'replay' not in k:
            continue
        from vf import replaydrv
        rr = replaydrv.run(k['replay']['driver'], k['replay']['args'])
        if not rr.get('ok'):
            undecided.append('known finding could not be replayed: %s' % rr.get('error'))
            continue
        out = rr['stdout'].strip()
        if 'defective_returncode' in k['replay'] and rr.get('returncode') == k['replay']['defective_returncode']:
            known_hits.append((k, {'obligation': 'replay:' + ' '.join(k['replay']['args'])}))
        elif out == k['replay']['defective_output'].strip():
            known_hits.append((k, {'obligation': 'replay:' + ' '.join(k['replay']['args'])}))
        elif out == k['replay'].get('expected_output', '\0').strip() or ('expected_prefix' in k['replay'] and out.startswith(k['replay']['expected_prefix'])):
            notes.append('NOTE known finding no longer reproduces (now as the property requires): %s' % k.get('what'))
        else:
            violations.append(('replay', {'obligation': 'replay:' + ' '.join(k['replay']['args']), 'kind': 'replay', 'rendered': 'expected %r, recorded defect %r, observed %r' % (
                k['replay'].get('expected_output', k['replay'].get('expected_prefix')), k['replay']['defective_output'], out), 'spans': [],
                'witness': {'confirmed_on_real_code': True, 'input': k['replay']['args'], 'observed': out, 'replay': {'driver': k['replay']['driver'], 'args': k['replay']['args']}}}))
    # ---- bounded stand-ins (labelled bounded, never counted as proved): functions outside the verifier's reach
    bounded_info = []
    for (n, m) in serving:
        for b in getattr(m, 'BOUNDED', {}).get(prop, []):
            from vf import replaydrv
            if b.get('script'):
                # a stand-in that needs an oracle beside the driver: a script under /verif/tools that calls the driver itself
                import subprocess
                sargs = list(b.get('args', [])) + (list(b.get('thorough_args', [])) if tier == 'thorough' else list(b.get('quick_args', []))) + (['--seed', str(seed)] if b.get('seeded') else [])
                try:
                    sp = subprocess.run([sys.executable, os.path.join(HERE, 'tools', b['script'])] + sargs, capture_output=True, text=True, timeout=3000)
                    rr = {'ok': sp.returncode == 0, 'stdout': sp.stdout, 'error': (sp.stdout + sp.stderr)[-500:]}
                except subprocess.TimeoutExpired:
                    rr = {'ok': False, 'error': 'timeout'}
            else:
                rr = replaydrv.run(b['driver'], b.get('args', []), timeout=600)
            if not rr.get('ok'):
                undecided.append('bounded stand-in %s could not run: %s' % (b['name'], rr.get('error')))
                continue
            out = rr['stdout']
            mm = re.search(r'cases=(\d+) failures=(\d+)', out)
            fails = [l[5:] for l in out.splitlines() if l.startswith('FAIL ')]
            bounded_info.append({'name': b['name'], 'bounded': True, 'bound': b['bound'], 'cases': int(mm.group(1)) if mm else 0, 'failures': len(fails), 'functions': b.get('functions')})
            if not mm:
                undecided.append('bounded stand-in %s produced no summary' % b['name'])
            for fl in fails:
                # a failing case that is a recorded known finding (identified by stand-in name + a pattern of the failing call and
                # its wrong answer) is listed as such; any other failing case of the same stand-in is a violation
                kf = [k for k in known.get('findings', []) if k.get('property') == prop and k.get('bounded_match', {}).get('name') == b['name'] and re.search(k['bounded_match']['regex'], fl)]
                if kf:
                    known_hits.append((kf[0], {'obligation': 'replay:bounded:%s' % b['name']}))
                    continue
                n_reported = len([1 for (_n, f_) in violations if f_.get('obligation') == 'bounded:%s' % b['name']])
                if n_reported >= 5:   # the first five failing cases of a stand-in are reported one by one, the rest only counted
                    bounded_info[-1]['failures_not_listed'] = bounded_info[-1].get('failures_not_listed', 0) + 1
                    continue
                violations.append(('bounded', {'obligation': 'bounded:%s' % b['name'], 'kind': 'bounded-check', 'rendered': fl, 'spans': [],
                                               'witness': {'confirmed_on_real_code': True, 'input': fl, 'replay': {'driver': b.get('driver'), 'script': b.get('script'), 'args': b.get('args', [])}}}))
    # ---- syntactic frame conditions (unit hook FRAME): "every function outside the contracted set has no access path to the
    # state" is decided by scanning the real source text on every run; a function that gains an access path without being
    # under contract fails the frame obligation (there is no verifier counterexample for it).
    frame_info = []
    for (n, m) in serving:
        for fn in getattr(m, 'FRAME_CHECKS', {}).get(prop, []):
            try:
                res = fn(os.environ.get('VERIF_REPO', '/repo'))
            except Exception as e:  # lost anchor etc.: undecided, never an alarm
                undecided.append('frame check %s could not run: %s' % (getattr(fn, '__name__', '?'), e))
                continue
            for r_ in res:
                frame_info.append({'name': r_['name'], 'ok': r_['ok'], 'detail': r_['detail'][:400]})
                if not r_['ok']:
                    violations.append(('frame', {'obligation': 'frame:%s' % r_['name'], 'kind': 'frame-condition', 'rendered': r_['detail'], 'spans': [], 'src': r_.get('src')}))
    wall = time.time() - t0
    # ---- report
    for nmsg in notes:
        print(nmsg)
    printed = set()
    for (k, f) in known_hits:
        if id(k) in printed:
            continue
        printed.add(id(k))
        print('KNOWN-FINDING: property=%s %s' % (prop, k.get('what', f['obligation'])))
    rc = 0
    replay_paths = []
    if violations:
        os.makedirs(REPLAYS, exist_ok=True)
        for i, (n, f) in enumerate(violations):
            path = os.path.join(REPLAYS, '%s-%d.json' % (prop, i))
            witness = f.get('witness')
            if witness is None:
                witness = extras.find_witness(units[n], f, prop) if n in units else None
            rep = {'property': prop, 'unit': n, 'obligation': f['obligation'], 'kind': f['kind'], 'exit': f.get('exit'), 'source': f.get('src'),
                   'verifier': 'verus', 'verifier_output': f.get('rendered', ''), 'spans': f.get('spans', []),
                   'failing_input': witness, 'replay_cmd': 'python3 %s --replay %s' % (os.path.join(HERE, 'check.py'), path)}
            with open(path, 'w') as fh:
                json.dump(rep, fh, indent=1)
            replay_paths.append(path)
            tail = '' if witness and witness.get('confirmed_on_real_code') else ' no-failing-input-found'
            print('VIOLATION property=%s replay=%s obligation=%s%s' % (prop, path, f['obligation'], tail))
        rc = 1
    if undecided:
        for u in undecided:
            print('UNDECIDED %s' % u)
        if rc == 0:
            rc = 2
    # The proof-level claim of this property covers the obligations that are discharged plus the ones reported as violations.
    # Obligations that fail as KNOWN FINDINGS (genuine defects recorded in known_findings.json) or that belong only to another
    # property are not part of the claim; they are listed under coverage.excluded_obligations.
    excluded = []
    for (k, f) in known_hits:
        if not str(f.get('obligation', '')).startswith('replay:'):
            excluded.append({'obligation': f.get('obligation'), 'reason': 'known finding: ' + (k.get('what') or '')[:160]})
    for nmsg in notes:
        if nmsg.startswith('NOTE also-failing '):
            excluded.append({'obligation': nmsg[len('NOTE also-failing '):].split(' ')[0], 'reason': 'belongs to another property only'})
    n_viol_verus = len([1 for (n_, f_) in violations if f_.get('kind') not in ('bounded-check', 'frame-condition', 'replay')])
    obligations = total_verified + n_viol_verus
    ev = {
        'property_id': prop,
        'tier': tier,
        'seed': seed,
        'level': 'proof',
        'coverage': {
            'obligations': obligations,
            'discharged': total_verified,
            'checker_cmd': '; '.join(v['cmd'] for v in per_unit.values()),
            'trusted_base': sorted(set(trusted)),
            'obligation_unit': 'one obligation = one Verus verification unit (function body / loop / spec-termination / lemma query) as counted by Verus "verified"+"errors"; each bundles the spliced clauses and the automatic overflow/index/termination conditions of that function',
            'contract_clauses_tagged_with_property': clause_count,
            'functions_under_contract': fn_records,
            'units': per_unit,
            'back_end': 'Verus 0.2026.09.13 (bundled Z3), single-file mode on text extracted from /repo working tree',
            'smt_run_ms': smt_ms,
            'rewrites_applied': rewrites[:200],
            'vacuity': {n: {'cover_points': v['cover_points'], 'reachable': v['cover_points_reachable']} for (n, v) in per_unit.items()},
            'samples': samples[:12] if samples else [{'obligation': 'none tagged'}],
            'not_decided': [x for (n, m) in serving for x in getattr(m, 'NOT_DECIDED', {}).get(prop, [])],
            'known_findings_hit': [k.get('what') for (k, f) in known_hits],
            'undecided': undecided,
            'thorough': extra_info,
            'bounded_stand_ins': bounded_info,
            'frame_conditions': frame_info,
            'excluded_obligations': excluded,
            'verus_functions_verified_total': total_verified, 'verus_errors_total': total_errors,
        },
        'assumptions': sorted(set([x for (n, m) in serving for x in getattr(m, 'ASSUMPTIONS', [])])),
        'wall_s': round(wall, 2),
        'violations': len(violations),
    }
    os.makedirs(EVID, exist_ok=True)
    with open(os.path.join(EVID, '%s.json' % prop), 'w') as fh:
        json.dump(ev, fh, indent=1)
    print('%s tier=%s units=%s obligations=%d discharged=%d clauses[%s]=%d violations=%d undecided=%d wall=%.1fs' % (
        prop, tier, ','.join(n for (n, _) in serving), obligations, total_verified, prop, clause_count, len(violations), len(undecided), wall))
    return rc


def safe_run(udef, variant, rlimit, extra, tag=None):
    try:
        built = B.build_unit(udef, cover=(variant == 'cover'))
        path = R.write_unit(built, tag or variant)
        cmd, rc, out, err, wall = R.run_verus(path, rlimit=rlimit, extra=extra, threads=6)
        r = R.analyse(built, variant, cmd, rc, out, err, wall)
        r.path = path
        return r
    except B.ExtractError as e:
        return 'extraction: %s' % e


def replay(path):
    with open(path) as f:
        rep = json.load(f)
    units = load_units()
    if rep['unit'] not in units:  # frame condition / bounded stand-in: re-run the property's quick check
        print('obligation %s (%s):' % (rep['obligation'], rep['kind']))
        print(rep.get('verifier_output', ''))
        return run_property(rep['property'], 'quick', 0)
    m = units[rep['unit']]
    r = safe_run(m.UNIT, 'main', None, None)
    if isinstance(r, str):
        print('UNDECIDED', r)
        return 2
    still = [f for f in r.failed if f['obligation'] == rep['obligation']]
    print('obligation %s: %s' % (rep['obligation'], 'STILL FAILS' if still else 'now discharged'))
    for f in still:
        print(f['rendered'])
    w = rep.get('failing_input')
    if w:
        print('recorded failing input:', json.dumps(w)[:2000])
        if w.get('replay'):
            rr = extras.run_replay(w['replay'])
            print('replayed on real code:', rr)
    return 1 if still else 0


def main():
    args = sys.argv[1:]
    if not args:
        print(__doc__)
        return 2
    if args[0] == '--replay':
        return replay(args[1])
    prop = args[0]
    tier = os.environ.get('VERIF_TIER', 'quick')
    if '--tier' in args:
        tier = args[args.index('--tier') + 1]
    seed = int(os.environ.get('VERIF_SEED', '0') or 0)
    return run_property(prop, tier, seed)


if __name__ == '__main__':
    sys.exit(main())
